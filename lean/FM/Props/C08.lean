import FM.Generated.Patterns
import FM.Model.PatternBaseline
import FM.Lemmas.Quotes
/-
  C08 — Smart quotes only swap individual quote characters, and only in prose.

  Theorems about the text-level model `smartQuotes` (tied to `smart_quotes` by equality on op
  `quotes`: all short strings over a 16-symbol alphabet plus sampled longer ones).  `isWord`
  (`\w` of Python's `re`) is a parameter.
-/
namespace FM.C08
open FM

theorem segments_rel (isWord : Char → Bool) : ∀ (segs : List (Bool × Str)),
    QRelS (segs.map Prod.snd).flatten
      (segs.map fun p => if p.1 then p.2 else applySmartQuotes isWord p.2).flatten
  | [] => .nil
  | (true, seg) :: rest => by
    simpa using (QRelS.refl seg).append (segments_rel isWord rest)
  | (false, seg) :: rest => by
    simpa using (applySmartQuotes_rel isWord seg).append (segments_rel isWord rest)

/-- Q_POINTWISE: the output has the same length as the input and differs from it only at
positions holding `'` (which may become ‘ or ’) or `"` (which may become “ or ”). -/
theorem Q_POINTWISE (isWord : Char → Bool) (s : Str) : QRelS s (smartQuotes isWord s) := by
  have h := segments_rel isWord (tagSegments s.length s [])
  rw [tagSegments_concat] at h
  simpa [smartQuotes] using h

theorem Q_LENGTH (isWord : Char → Bool) (s : Str) : (smartQuotes isWord s).length = s.length :=
  (Q_POINTWISE isWord s).length.symm

/-- Every non-quote character survives in place: line breaks, letters, tag delimiters … -/
theorem Q_OTHER_CHARS (isWord : Char → Bool) (s : Str) (i : Nat) (c : Char)
    (h : s[i]? = some c) (hq : c ≠ '\'' ∧ c ≠ '"') : (smartQuotes isWord s)[i]? = some c := by
  have hr := Q_POINTWISE isWord s
  generalize smartQuotes isWord s = t at hr
  induction hr generalizing i with
  | nil => simp at h
  | cons hab _ ih =>
    cases i with
    | zero =>
      simp at h ⊢; subst h
      rcases hab with rfl | ⟨h1, _⟩ | ⟨h1, _⟩
      · rfl
      · exact absurd h1 hq.1
      · exact absurd h1 hq.2
    | succ i => simpa using ih i (by simpa using h)

/-- Q_TAGS: the text is cut into template-tag spans and the text between them; tag spans are
copied verbatim, and quote pairing never crosses a tag (each stretch is processed on its own). -/
theorem Q_TAGS (isWord : Char → Bool) (s : Str) :
    let segs := tagSegments s.length s []
    (segs.map Prod.snd).flatten = s ∧
    smartQuotes isWord s =
      (segs.map fun p => if p.1 then p.2 else applySmartQuotes isWord p.2).flatten := by
  exact ⟨by simpa using tagSegments_concat s.length s [], rfl⟩

/-- Q_PARA: a quote pair whose content contains a paragraph break is left as it is. -/
theorem Q_PARA (q o cl : Char) (cs content rest : Str)
    (h1 : scanContent q o cl cs = some (content, rest)) (h2 : suffixOk rest = true)
    (hp : hasParaBreak content = true) :
    quoteSpan q o cl cs = some (q :: content ++ [q], rest) := by
  simp [quoteSpan, h1, h2, hp]

/-- Q_LOOKAHEAD: the character after the closing quote is never consumed: the rest to scan starts
right after the closing quote, so the same character can open the next quoted string. -/
theorem Q_LOOKAHEAD (q o cl : Char) (cs out rest : Str) (h : quoteSpan q o cl cs = some (out, rest)) :
    ∃ content, scanContent q o cl cs = some (content, rest) ∧ out.length = content.length + 2 := by
  unfold quoteSpan at h
  cases hs : scanContent q o cl cs with
  | none => simp [hs] at h
  | some p =>
    obtain ⟨content, r⟩ := p
    simp only [hs] at h
    split at h
    · split at h <;> (simp at h; obtain ⟨rfl, rfl⟩ := h; exact ⟨content, rfl, by simp⟩)
    · simp at h

def asciiWord (c : Char) : Bool := c.isAlphanum || c == '_'

/-- non-vacuity: typical prose, and a tag whose quotes stay straight. -/
example : smartQuotes asciiWord "He said \"yes\" and it's 'fine'.".toList
    = "He said “yes” and it’s ‘fine’.".toList := by decide
example : smartQuotes asciiWord "a {% t k=\"v\" %} \"b\"".toList
    = "a {% t k=\"v\" %} “b”".toList := by decide

/-- adjacent quoted strings are all converted in one pass (the defect fixed in flowmark fafdec6) -/
example : smartQuotes asciiWord "He said \"yes\" \"no\" and 'a'—'b'".toList
    = "He said “yes” “no” and ‘a’—‘b’".toList := by decide

/-- Idempotence is still FALSE of the code and of its model (this matters for C02): a single-quoted
span that overlaps a double-quoted one hides the latter from the first pass only. -/
theorem Q_IDEM_false :
    smartQuotes asciiWord (smartQuotes asciiWord "'a \"b' c\"".toList)
      ≠ smartQuotes asciiWord "'a \"b' c\"".toList := by decide


/-- PATTERNS_AS_MODELLED: the regular expressions of the source files this property's models were written against
(regenerated from /repo's working tree on every run by harness/translate_patterns.py) are the recorded ones. -/
theorem PATTERNS_AS_MODELLED : FM.Gen.patterns_C08 = FM.Baseline.patterns_C08 := by decide

end FM.C08
