import FM.Lemmas.Refill
import FM.Props.C07
import FM.Props.C08
import FM.Props.C10
/-
  C02 — Formatting is idempotent.

  The wrapper layer: re-filling the words of a greedy fill's output reproduces the same lines,
  Markdown escapes included (WRAP_FIX).  The frontmatter shell: C07.FM_UNCLOSED_FIX.  The text
  rewrites: smart quotes and unbolding are NOT idempotent (witnesses), ellipses is tested
  exhaustively on bounded strings (C09).  Document level: byte equality `fmt (fmt x) = fmt x` is
  decided by the end-to-end oracle (harness/props/c02.py) with the known findings attributed.
-/
namespace FM.C02
open FM

theorem escOf_len (md : Bool) (w : Word) : w.length ≤ (escOf md w).length := by
  cases md <;> simp [escOf, escapeWord_length]

theorem escOf_idem (md : Bool) (w : Word) : escOf md (escOf md w) = escOf md w := by
  cases md <;> simp [escOf, escapeWord_idem]

/-- WRAP_FIX: for every word list, width, columns and both escape modes, filling the words of the
output again (as the parser hands them back: escaped heads as literal words) gives the same lines.
The escape interaction is part of the statement: a head escaped in pass 1 is, in pass 2, a longer
word that still does not fit on the previous line and is not escaped again. -/
theorem WRAP_FIX (W c0 c1 : Nat) (md : Bool) (ws : List Word) :
    fill W c1 md c0 (fill W c1 md c0 ws).flatten = fill W c1 md c0 ws := by
  have h := fillG_refill (escOf md) (escOf_len md) (escOf_idem md) W c0 c1 ws [] c0 true (fun _ => rfl)
  simpa [fill, wordsAfter] using h

/-- the escape never needs a second application -/
theorem ESCAPE_IDEM (w : Word) : escapeWord (escapeWord w) = escapeWord w := escapeWord_idem w

/-- FM_FIX: unclosed frontmatter is a fixed point of the shell (C07). -/
theorem FM_FIX (text : Str) (F : Str → Str) (hcr : '\r' ∉ text)
    (h : splitFrontmatterLines (fmLines text) = .unclosed) :
    fillShell F (fillShell F text) = fillShell F text :=
  (C07.FM_UNCLOSED_FIX text F hcr h).2

/-- the two text transforms that are not idempotent on their own (kernel-checked witnesses) -/
theorem TRANSFORM_IDEM_false :
    (smartQuotes C08.asciiWord (smartQuotes C08.asciiWord "'a \"b' c\"".toList)
        ≠ smartQuotes C08.asciiWord "'a \"b' c\"".toList) ∧
    (unboldInl (unboldInl [.strong [.strong [.raw ['x']]]]) ≠ unboldInl [.strong [.strong [.raw ['x']]]]) := by
  refine ⟨C08.Q_IDEM_false, ?_⟩
  rw [C10.UNBOLD_IDEM_false.1, C10.UNBOLD_IDEM_false.2]
  intro h; cases h

/-- non-vacuity: a wrap with an introduced escape is a fixed point -/
example : fill 10 0 true 0 (fill 10 0 true 0 ["aaaa".toList, "bbbb".toList, "-".toList, "x".toList]).flatten
    = [["aaaa".toList, "bbbb".toList], ["\\-".toList, "x".toList]] := by decide

end FM.C02
