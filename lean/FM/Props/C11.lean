import FM.Generated.Patterns
import FM.Model.PatternBaseline
import FM.Lemmas.Sentence
/-
  C11 — Semantic line breaks fall at sentence ends and keep edits local.

  Theorems about the exact fold model `foldSent`/`wrapBySentence` of `line_wrap_by_sentence`
  (tied by equality on op `sentWrap`).  The sentence-end test is a parameter (words arrive
  flagged), so the theorems hold for whatever `SENTENCE_END_RE` recognises.
-/
namespace FM.C11
open FM

/-- FRAME: the loop only ever rewrites the last line and appends. -/
theorem FRAME (c : SCfg) (ss : List (List Word)) (first : Bool) (pre suf : List Line)
    (h : suf ≠ []) : foldSent c first (pre ++ suf) ss = pre ++ foldSent c first suf ss :=
  foldSent_frame c ss first pre suf h

/-- LOCAL_PREFIX: two paragraphs that agree on their first sentences `pre` give outputs that
agree on every line before the last line produced by `pre` (whatever follows: `a` vs `b`). -/
theorem LOCAL_PREFIX (c : SCfg) (pre a b : List (List Word)) :
    let P := foldSent c true [] pre
    ∃ ta tb, foldSent c true [] (pre ++ a) = P.dropLast ++ ta ∧
             foldSent c true [] (pre ++ b) = P.dropLast ++ tb := by
  intro P
  rw [foldSent_append, foldSent_append]
  show ∃ ta tb, foldSent c (true && pre.isEmpty) P a = P.dropLast ++ ta ∧
                foldSent c (true && pre.isEmpty) P b = P.dropLast ++ tb
  generalize (true && pre.isEmpty) = f
  by_cases hP : P = []
  · rw [hP]; exact ⟨_, _, (List.nil_append _).symm, (List.nil_append _).symm⟩
  · have hsplit : P = P.dropLast ++ [P.getLast hP] := (List.dropLast_concat_getLast hP).symm
    refine ⟨foldSent c f [P.getLast hP] a, foldSent c f [P.getLast hP] b, ?_, ?_⟩
    · conv => lhs; rw [hsplit]
      exact foldSent_frame c a f _ _ (by simp)
    · conv => lhs; rw [hsplit]
      exact foldSent_frame c b f _ _ (by simp)

/-- END_BREAKS: after a line of at least `min_line_len` the next sentence starts a new line,
wrapped on its own from the continuation indent. -/
theorem END_BREAKS (c : SCfg) (L : List Line) (l : Line) (s : List Word)
    (h : c.minLen ≤ lineLen l) :
    sentStep c false (L ++ [l]) s = L ++ [l] ++ fill c.W c.s0 c.md c.s0 s :=
  sentStep_long c L l s h

/-- LOCAL_SUFFIX: once a sentence ends on a line of at least `min_line_len`, everything that
follows is laid out independently of all earlier text. -/
theorem LOCAL_SUFFIX (c : SCfg) : ∀ (suf : List (List Word)) (L : List Line) (l : Line),
    c.minLen ≤ lineLen l →
    foldSent c false (L ++ [l]) suf = L ++ [l] ++ foldSent c false [] suf := by
  intro suf
  induction suf with
  | nil => intros; simp [foldSent]
  | cons s rest ih =>
    intro L l h
    simp only [foldSent]
    rw [sentStep_long c L l s h, sentStep_nil]
    by_cases hx : fill c.W c.s0 c.md c.s0 s = []
    · rw [hx]; simp only [List.append_nil]; exact ih L l h
    · exact foldSent_frame c rest false (L ++ [l]) _ hx

/-- Two runs that both end some sentence on a long line continue identically. -/
theorem LOCAL_SUFFIX_two (c : SCfg) (suf : List (List Word)) (LA LB : List Line) (la lb : Line)
    (ha : c.minLen ≤ lineLen la) (hb : c.minLen ≤ lineLen lb) :
    (foldSent c false (LA ++ [la]) suf).drop (LA ++ [la]).length =
    (foldSent c false (LB ++ [lb]) suf).drop (LB ++ [lb]).length := by
  rw [LOCAL_SUFFIX c suf LA la ha, LOCAL_SUFFIX c suf LB lb hb]
  simp

/-- BREAK_CAUSE: each sentence contributes exactly the lines of a greedy fill of that sentence
alone (from some starting column), appended — or glued to the previous line when that line is
shorter than `min_line_len`.  With `C05.MAXIMAL` every break inside a sentence is width-forced;
every other break is a sentence boundary. -/
theorem BREAK_CAUSE (c : SCfg) (first : Bool) (lines : List Line) (s : List Word) :
    ∃ col, sentStep c first lines s = lines ++ fill c.W c.s0 c.md col s ∨
      ∃ last w0 rest, lines.getLast? = some last ∧ lineLen last < c.minLen ∧
        fill c.W c.s0 c.md col s = w0 :: rest ∧
        sentStep c first lines s = lines.dropLast ++ (last ++ w0) :: rest := by
  unfold sentStep
  cases hl : lines.getLast? with
  | none => exact ⟨_, Or.inl rfl⟩
  | some last =>
    simp only
    split
    · rename_i hshort
      obtain ⟨col, hp⟩ := pickWrapped_eq c ((if first then c.i0 else c.s0) + lineLen last) s
      rw [hp]
      rcases mergeLast_shape c lines last (fill c.W c.s0 c.md col s) with h | ⟨w0, rest, hw, h⟩
      · exact ⟨col, Or.inl h⟩
      · exact ⟨col, Or.inr ⟨last, w0, rest, rfl, hshort, hw, h⟩⟩
    · exact ⟨_, Or.inl rfl⟩

/-- S_LOSSLESS: the output is the input word sequence, line by line, up to the Markdown escape
of some words (heads of wrapped lines inside a sentence). -/
theorem S_LOSSLESS_step (c : SCfg) (first : Bool) (lines : List Line) (s : List Word) :
    ∃ Y, (sentStep c first lines s).flatten = lines.flatten ++ Y ∧ EscRel (escOf c.md) Y s := by
  obtain ⟨col, h | ⟨last, w0, rest, hl, _, hw, h⟩⟩ := BREAK_CAUSE c first lines s
  · exact ⟨_, by rw [h]; simp, fill_escRel c.W col c.s0 c.md s⟩
  · refine ⟨(w0 :: rest).flatten, ?_, by rw [← hw]; exact fill_escRel c.W col c.s0 c.md s⟩
    have hne : lines ≠ [] := by intro h0; simp [h0] at hl
    have hlast : lines.getLast hne = last := by
      have := List.getLast?_eq_some_getLast hne; rw [hl] at this; exact (Option.some.inj this).symm
    have hsplit : lines = lines.dropLast ++ [last] := by
      rw [← hlast]; exact (List.dropLast_concat_getLast hne).symm
    rw [h]
    conv => rhs; rw [hsplit]
    simp [List.append_assoc]

theorem S_LOSSLESS (c : SCfg) : ∀ (ss : List (List Word)) (first : Bool) (lines : List Line),
    ∃ X, (foldSent c first lines ss).flatten = lines.flatten ++ X ∧
      EscRel (escOf c.md) X ss.flatten := by
  intro ss
  induction ss with
  | nil => intro first lines; exact ⟨[], by simp [foldSent], .nil⟩
  | cons s rest ih =>
    intro first lines
    obtain ⟨Y, hY, hYr⟩ := S_LOSSLESS_step c first lines s
    obtain ⟨X, hX, hXr⟩ := ih false (sentStep c first lines s)
    refine ⟨Y ++ X, ?_, by simpa using hYr.append hXr⟩
    simp only [foldSent]
    rw [hX, hY, List.append_assoc]

/-- SPLIT: sentence splitting partitions the word sequence. -/
theorem SPLIT : ∀ (ws : List (Word × Bool)) (cur : List Word),
    (splitSent ws cur).flatten = cur ++ ws.map Prod.fst := by
  intro ws
  induction ws with
  | nil => intro cur; cases cur <;> simp [splitSent]
  | cons p ws ih =>
    intro cur
    obtain ⟨w, e⟩ := p
    cases e <;> simp [splitSent, ih]

/-- non-vacuity: a concrete paragraph where all three behaviours (merge, sentence break,
width break) occur. -/
example :
    (wrapBySentence { W := 20, i0 := 0, s0 := 0, minLen := 8, md := false }
      [("Go".toList, false), ("on.".toList, true), ("This".toList, false), ("is".toList, false),
       ("long".toList, false), ("enough".toList, false), ("here.".toList, true),
       ("End.".toList, true)]).map joinSp
    = ["Go on. This is long".toList, "enough here.".toList, "End.".toList] := by decide


/-- PATTERNS_AS_MODELLED: the regular expressions of the source files this property's models were written against
(regenerated from /repo's working tree on every run by harness/translate_patterns.py) are the recorded ones. -/
theorem PATTERNS_AS_MODELLED : FM.Gen.patterns_C11 = FM.Baseline.patterns_C11 := by decide

end FM.C11
