import FM.Generated.Patterns
import FM.Model.PatternBaseline
import FM.Lemmas.TagSeg
/-
  C06 — Template tags and other atomic constructs are never split or displaced.

  Theorems about the Lean models of the word splitter (`unitSplit`, `mdSplit`), the tag-newline
  layer (`segmentLines`, `rejoinSegments`) and `preprocessTagBlockSpacing`; the scanners
  (`atomSpans`) are tied to `ATOMIC_CONSTRUCT_PATTERN` by bounded-exhaustive comparison, and the
  complete wrappers (`mdFillWrapper`, `mdSentenceWrapper`) by equality on random rich paragraphs.
-/
namespace FM.C06
open FM

/-- SPAN_INTACT: whatever the mask (i.e. whatever the scanner recognises), a run of characters that
contains no *unmasked* whitespace is never split: it ends up inside one word. In particular every
atom (all of whose characters are masked) stays whole, at every width, because the wrappers only
ever break between the words this splitter returns (C05.LOSSLESS). -/
theorem SPAN_INTACT (xs ys : List (Char × Bool)) (cur : Word)
    (h : ∀ p ∈ xs, (isPySpace p.1 && !p.2) = false) :
    unitSplitAux (xs ++ ys) cur = unitSplitAux ys ((xs.map Prod.fst).reverse ++ cur) :=
  unitSplitAux_run xs ys cur h

/-- no empty words -/
theorem SPLIT_NONEMPTY (text : Str) (mask : List Bool) : ∀ w ∈ unitSplit text mask, w ≠ [] :=
  unitSplitAux_nonempty _ _

/-- ALONE: an unindented line that consists of a tag (or comment) only is a segment of its own:
the segment before it is closed, and the line after it starts a new one. -/
theorem ALONE (hasTags : Bool) (L next : Str) (rest : List Str) (prev : Option Str) (cur : List Str)
    (hL : isTagOnlyLine L = true) :
    segmentLines hasTags (L :: next :: rest) prev cur =
      (if cur.isEmpty then [] else [cur.reverse]) ++ [L] :: segmentLines hasTags rest (some next) [next] := by
  obtain ⟨hu, he⟩ := tagOnly_unindented hL
  by_cases hc : cur.isEmpty = true
  · have : cur = [] := by simpa using hc
    subst this
    simp [segmentLines, hu, he]
  · simp [segmentLines, hu, he, hc]

theorem ALONE_last (hasTags : Bool) (L : Str) (prev : Option Str) (cur : List Str)
    (hL : isTagOnlyLine L = true) :
    segmentLines hasTags [L] prev cur = (if cur.isEmpty then [] else [cur.reverse]) ++ [[L]] := by
  obtain ⟨hu, _⟩ := tagOnly_unindented hL
  by_cases hc : cur.isEmpty = true
  · have : cur = [] := by simpa using hc
    subst this
    simp [segmentLines]
  · simp [segmentLines, hu, hc]

/-- BLOCKGAP (rejoin): between a segment that ends with a tag and a list/table segment — and between
a list/table segment and an unindented tag line — exactly one empty line is inserted. -/
theorem BLOCKGAP (p seg : List Str) (wrapped : Str) (rest : List (List Str × Str))
    (h : needsGap p seg = true) :
    rejoinSegments ((seg, wrapped) :: rest) (some p) = [] :: wrapped :: rejoinSegments rest (some seg) := by
  simp [rejoinSegments, h]

/-- … and no blank line is invented anywhere else. -/
theorem NOGAP (p seg : List Str) (wrapped : Str) (rest : List (List Str × Str))
    (h : needsGap p seg = false) :
    rejoinSegments ((seg, wrapped) :: rest) (some p) = wrapped :: rejoinSegments rest (some seg) := by
  simp [rejoinSegments, h]

/-- PRE_GAP: before parsing, a blank line is put between a tag-only line and a directly following
list/table line (outside fenced code). -/
theorem PRE_GAP (line p : Str) (rest : List (Str × Bool))
    (hp : isBlankLine p = false) (ht : isTagOnlyLine p = true) (hb : lineIsBlock line = true) :
    ∃ tail, preprocessAux ((line, false) :: rest) (some (p, false)) = [] :: tail := by
  simp [preprocessAux, hp, ht, hb]

/-- PRE_CODE_UNTOUCHED: between two lines of a fenced code block nothing is ever inserted. -/
theorem PRE_CODE_UNTOUCHED (line p : Str) (rest : List (Str × Bool)) :
    preprocessAux ((line, true) :: rest) (some (p, true)) = line :: preprocessAux rest (some (line, true)) := by
  simp [preprocessAux]

/-- CLOSING_INLINE_KEPT: a closing tag whose opening tag is in the same text (more tags opened than
closed on the lines before it) is left exactly as the wrapper laid it out — not de-indented, no blank
line put before it — so an inline pair that wrapping happened to break stays inside its list item. -/
theorem CLOSING_INLINE_KEPT (line : Str) (rest prev acc : List Str) (h : hasUnclosedTag prev = true) :
    fixClosingAux (line :: rest) prev acc = fixClosingAux rest (line :: prev) (line :: acc) := by
  simp [fixClosingAux, h]

/-- … and a line that is not a closing tag is never touched. -/
theorem CLOSING_OTHER_KEPT (line : Str) (rest prev acc : List Str) (h : isClosingTag line = false) :
    fixClosingAux (line :: rest) prev acc = fixClosingAux rest (line :: prev) (line :: acc) := by
  simp [fixClosingAux, h]

/-- SEP (separated tags stay separated) is FALSE of the code and of its model: the space between
two tags of one family is removed by `denormalize_adjacent_tags`. -/
theorem SEP_false :
    mdFillWrapper 88 "text {% a %} {% b %} more".toList [] [] = "text {% a %}{% b %} more".toList := by
  decide

/-- ADJ: adjacent tags stay adjacent (non-vacuity of the normalise/denormalise pair). -/
example : mdFillWrapper 88 "x {% a %}{% /a %} y".toList [] [] = "x {% a %}{% /a %} y".toList := by decide

/-- however narrow the width, an atom is one word: a link with spaces at width 5. -/
example : mdFillWrapper 5 "see [a b c](http://u v) now".toList [] []
    = "see\n[a b c](http://u v)\nnow".toList := by decide


/-- PATTERNS_AS_MODELLED: the regular expressions of the source files this property's models were written against
(regenerated from /repo's working tree on every run by harness/translate_patterns.py) are the recorded ones. -/
theorem PATTERNS_AS_MODELLED : FM.Gen.patterns_C06 = FM.Baseline.patterns_C06 := by decide +kernel

end FM.C06
